package sim

import (
	"context"
	"encoding/json"
	"fmt"
	"runtime"
	"strconv"
	"strings"
	"time"

	"github.com/luno/workflow"
	"github.com/luno/workflow/internal/util"
	"github.com/luno/workflow/verifharness/report"
)

// Monitors are the implementation-side oracles (DESIGN §2-C): they watch the real code through the simulator's
// adapters and user functions and are written from the property texts, not from the model.
type Monitors struct {
	w *World

	Viol []report.Violation

	// current operation
	opRole, opTok         string
	opFailed              bool   // an adapter fault or an unhandled user-function error occurred in the delivery in flight
	opFnErr               string // last failing user-function outcome not (yet) followed by a Paused write
	opLeaseLost           bool
	opFailLabel           string
	opStores              int
	opInvocations         []Invocation
	curTimer              *workflow.TimeoutRecord
	lookupsSinceTimeoutFn int            // record-store lookups since the last timeout-function invocation of this operation (the updater re-reads)
	timeoutAdvanced       bool           // that invocation returned a real destination
	timerDone             map[int64]uint // timer ID -> version written by the transition of its timeout function (C12: it must never fire again)
	pollList              []workflow.TimeoutRecord
	pollIdx               int

	// deliveries
	inflight    map[string]int  // receiver name -> log index delivered, not acked
	readVer     map[string]uint // receiver name -> record version the store answered with for the delivery in flight
	entryWrite  map[int][2]int  // outbox ordinal -> (run, number of the write it announces, from 1)
	evWrite     map[int][2]int  // log index -> (run, number of the write the event announces)
	filteredAck bool
	unacked     map[string]int  // receiver name -> index that must be delivered again next
	advers      map[string]bool // an adversarial cursor move happened for this receiver
	recvTopic   map[string]string

	// relay
	sentOK map[int]bool // outbox ordinal -> accepted by the streamer
	writes []workflow.Record
	pubOK  map[string]int // rendering of a published event -> count

	// supervision
	awaits      map[string]int
	lastFailure map[string]string // role -> "error" | "cancel" | "" since the last await
	sawTimer    map[string]bool

	// error counting (C13)
	errCount       map[string]int  // run|proc|err -> failing invocations since the last pause
	pausePending   map[string]bool // the pause at the threshold was attempted but cut by a fault
	pauseUncertain map[string]bool

	// hooks (C14)
	hookOK map[string]bool // "rs/run/version" -> hook returned nil

	tainted     bool
	after       string // first known-finding class this history has hit
	staleReads  int
	dups        int
	handleStale bool
	stopping    bool
	stopped     bool
	NonTrivial  map[string]bool
}

func newMonitors(w *World) *Monitors {
	return &Monitors{w: w, entryWrite: map[int][2]int{}, evWrite: map[int][2]int{}, readVer: map[string]uint{}, inflight: map[string]int{}, unacked: map[string]int{}, advers: map[string]bool{}, recvTopic: map[string]string{},
		sentOK: map[int]bool{}, pubOK: map[string]int{}, awaits: map[string]int{}, lastFailure: map[string]string{}, sawTimer: map[string]bool{},
		errCount: map[string]int{}, pausePending: map[string]bool{}, pauseUncertain: map[string]bool{}, hookOK: map[string]bool{}, NonTrivial: map[string]bool{}}
}

func (m *Monitors) violate(prop, oracle, sig, detail string) {
	if m.after != "" && !strings.Contains(sig, "+") && !strings.HasPrefix(sig, "newer-event-acknowledged") && !strings.HasPrefix(sig, "function-ran-on-record-older-than-its-event") {
		// downstream of a listed finding class hit earlier in this history
		sig += "+after(" + m.after + ")"
	}
	for _, v := range m.Viol {
		if v.Property == prop && v.Signature == sig {
			return
		}
	}
	m.Viol = append(m.Viol, report.Violation{Property: prop, Oracle: oracle, Signature: sig, Detail: detail})
}

func isStopped(rs int) bool  { return rs == 3 || rs == 4 || rs == 6 || rs == 7 }
func isFinished(rs int) bool { return rs == 4 || rs == 5 || rs == 6 || rs == 7 }

func lifecycleEdge(a, b int) bool {
	if a == b {
		return true
	}
	switch a {
	case 1:
		return b == 2 || b == 3 || b == 4 || b == 5
	case 2:
		return b == 3 || b == 4 || b == 5
	case 3:
		return b == 2 || b == 4
	case 4, 5:
		return b == 7
	case 7:
		return b == 6
	case 6:
		return b == 7
	}
	return false
}

// stackFuncs returns the function names of the current call stack, innermost first.
func stackFuncs() []string {
	pcs := make([]uintptr, 96)
	n := runtime.Callers(2, pcs)
	frames := runtime.CallersFrames(pcs[:n])
	var out []string
	for {
		f, more := frames.Next()
		out = append(out, f.Function)
		if !more {
			return out
		}
	}
}

// writerKind tells which of the library's write paths is calling Store, from the Go call stack. (The updater closure is
// inlined into its creators, so it is recognised as "goes through updateRecord and is none of the others".)
func (m *Monitors) writerKind() string {
	fs := stackFuncs()
	has := func(sub string) bool {
		for _, f := range fs {
			if strings.Contains(f, sub) {
				return true
			}
		}
		return false
	}
	switch {
	case has("runStateControllerImpl"):
		return "controller"
	case has("workflow.trigger["):
		return "trigger"
	case m.opTok == "del" && m.w.inUserFn == 0:
		return "delete-consumer"
	case has("workflow.updateRecord"):
		return "updater"
	}
	return "other"
}

// directCaller returns the library function that called the adapter method `method` (e.g. "sim.Store.Lookup").
func directCaller(method string) string {
	fs := stackFuncs()
	for i, f := range fs {
		if strings.HasSuffix(f, method) && i+1 < len(fs) {
			return fs[i+1]
		}
	}
	return ""
}

func (m *Monitors) afterFlag() string {
	if m.after != "" {
		return "+after(" + m.after + ")"
	}
	return ""
}

func (m *Monitors) pathName() string {
	// which code path is making the current call: process token kind, or api action
	t := m.opTok
	if i := strings.Index(t, ":"); i >= 0 && !strings.HasPrefix(t, "api:") {
		t = t[:i]
	}
	if m.handleStale {
		t += "+stale-handle"
	}
	if m.w.nestedInOp {
		t += "+reentry"
	}
	if m.w.staleInOp {
		t += "+stale-read"
	}
	if strings.HasPrefix(m.opTok, "pol:") {
		st, _ := strconv.Atoi(strings.Split(m.opTok, ":")[1])
		if len(m.w.Cfg.TimeoutsAt(st)) > 1 {
			t += "+two-timeouts"
		}
	}
	if strings.Contains(t, "+") && m.after == "" {
		m.after = t[strings.Index(t, "+")+1:]
	} else if m.after != "" && !strings.Contains(t, "+") {
		// an earlier operation of this history already hit a listed finding class (stale read, stale handle, re-entrant write,
		// two timeouts): what follows may be its downstream consequence
		t += "+after(" + m.after + ")"
	}
	return t
}

// afterStep: where the process came to rest after one operation (C07 back-off, C15 redelivered delete requests).
func (m *Monitors) afterStep(s *Sim, role, tok string) {
	w := m.w
	pk, ok := w.S.parkedAt(role)
	if !ok {
		return
	}
	hasCancel := false
	for _, k := range w.env.Faults {
		if k == FCancel {
			hasCancel = true
		}
	}
	backoff := time.Duration(w.Cfg.ErrBackOffSec) * time.Second
	inBackoff := pk.kind == gTimer && pk.deadline.Equal(w.S.now.Add(backoff))
	// C07: "the same event is handled again (after the configured back-off when the cause was an error)"
	if m.opFailed && !m.opLeaseLost && !hasCancel && !strings.HasPrefix(tok, "pol:") && tok != "ob" && backoff > 0 && !inBackoff && pk.kind == gRole {
		if _, unacked := m.unacked[role]; unacked {
			m.violate("C07", "backoff-after-error", "no-backoff-after-failed-handling:"+strings.SplitN(tok, ":", 2)[0]+m.afterFlagIfAny(),
				fmt.Sprintf("%s failed handling an event (%q, fault plan %v) and is back at its role gate at once instead of waiting the error back-off of %v", tok, m.opFnErr, w.env.Faults, backoff))
		}
	}
	// C11 / C07: a failing Recv (any error other than cancellation, whatever it wraps) fails the process's run: the receiver is closed
	// and the process waits out the error back-off before it asks for its role again - it does not simply call Recv again
	if m.opFailed && m.opFailLabel == "recv" && !m.opLeaseLost && !hasCancel && backoff > 0 && pk.kind == gRecv {
		for _, prop := range []string{"C11", "C07"} {
			m.violate(prop, "backoff-after-error", "receive-error-not-backed-off:"+strings.SplitN(tok, ":", 2)[0]+m.afterFlagIfAny(),
				fmt.Sprintf("%s: Recv failed (fault plan %v) and the process is waiting in Recv again instead of closing the receiver and backing off %v", tok, w.env.Faults, backoff))
		}
	}
	// C15: "a redelivered request leaves the run DataDeleted and scrubbed": the delete consumer must not fail on an event of a
	// run that is already DataDeleted when nothing was injected and the delete function did not fail
	if tok == "del" && !m.opFailed && !m.opLeaseLost && len(w.env.Faults) == 0 && m.w.env.Stale == 0 {
		if idx, unacked := m.unacked[role]; unacked && inBackoff && idx < len(w.log) {
			if rr, ok := w.byID[w.log[idx].Headers[workflow.HeaderRunID]]; ok && len(rr.versions) > 0 && int(rr.versions[len(rr.versions)-1].RunState) == 6 {
				m.violate("C15", "redelivery-idempotent", "redelivered-delete-request-fails"+m.afterFlagIfAny(),
					fmt.Sprintf("the delete consumer failed on e%d although nothing was injected and the delete function did not fail: run r%d is already DataDeleted (a redelivered request); the consumer is wedged on this event", idx, rr.ord))
			}
		}
	}
}

func (m *Monitors) afterFlagIfAny() string { return m.afterFlag() }

// ---------- operation framing ----------

func (m *Monitors) beginOp(role, tok string) {
	m.opRole, m.opTok = role, tok
	m.opFailed, m.opFnErr, m.opLeaseLost, m.opStores, m.opFailLabel = false, "", false, 0, ""
	m.opInvocations = nil
	m.curTimer, m.pollList, m.pollIdx = nil, nil, 0
}

func (m *Monitors) endOp() {
	// C13: a failing step/timeout invocation that reached the threshold must have been followed by a Paused write (unless a fault intervened)
	m.pauseMissed()
	m.opRole, m.opTok = "", ""
}

func (m *Monitors) leaseLost(role string) { m.opLeaseLost = true; m.lastFailure[role] = "cancel" }

func (m *Monitors) adversary(role string) { m.advers[role] = true; delete(m.unacked, role) }

// ---------- every adapter call (C11 lease, C07 lag) ----------

func (m *Monitors) adapterCall(ctx context.Context, proc, label string) {
	w := m.w
	if m.stopped {
		m.violate("C11", "no-adapter-call-after-stop", "adapter-call-after-stop", fmt.Sprintf("%s called by %q after Stop returned", label, proc))
		return
	}
	if m.stopping {
		return
	}
	if proc == "" {
		m.violate("C11", "one-process-at-a-time", "adapter-call-with-no-current-process", label)
		return
	}
	if proc == "api" {
		return
	}
	// background process: the context must be the one the role scheduler handed out for the current tenure
	l := w.leaseOf(ctx)
	w.S.mu.Lock()
	cur := w.S.leases[proc]
	w.S.mu.Unlock()
	if l == nil || cur == nil || l != cur {
		got := "none"
		if l != nil {
			got = fmt.Sprintf("%s#%d", l.proc, l.id)
		}
		m.violate("C11", "lease-on-every-call", "adapter-call-outside-lease:"+strings.SplitN(label, "(", 2)[0],
			fmt.Sprintf("process %s called %s with lease %s instead of its current lease", m.opTok, label, got))
		if strings.HasPrefix(m.opTok, "sch") && label != "" && strings.HasPrefix(label, "store") {
			// C20: "at most one run per tick" rests on there being one scheduler per foreign ID and spec - the holder of the
			// scheduler role. A scheduler that creates a run without holding it does so alongside the instance that does.
			m.violate("C20", "one-run-per-tick", "run-created-without-the-scheduler-role",
				fmt.Sprintf("the scheduler %s created a run (%s) under lease %s, not its current role lease: whichever instance holds the role triggers for the same tick", m.opTok, label, got))
		}
	}
	// C11: "losing the role stops its work": once the lease of the calling process has been cancelled, the context of every later
	// adapter call reports cancellation too - a context that carries the lease's values but not its cancellation
	// (context.WithoutCancel, a context kept from before) lets the call go through without the role
	if cur != nil && l == cur && cur.ctx != nil && cur.ctx.Err() != nil && ctx != nil && ctx.Err() == nil {
		m.violate("C11", "role-loss-stops-work", "adapter-call-after-role-loss:"+strings.SplitN(label, "(", 2)[0],
			fmt.Sprintf("process %s called %s after its role lease was cancelled, with a context that is still live", m.opTok, label))
	}
	// C07 lag: the handler's first store access for a delivery must not happen before the event has aged by the lag
	// (checked also when the context is already cancelled: the handler was started all the same)
	if idx, ok := m.inflight[proc]; ok && (label == "lookup") {
		if lag := m.lagOf(m.opTok); lag > 0 {
			age := w.Clk.Now().Sub(w.log[idx].CreatedAt)
			if age < lag {
				m.violate("C07", "consume-lag", "handled-before-lag", fmt.Sprintf("process %s started handling event e%d aged %v, configured lag %v (context cancelled: %v)", m.opTok, idx, age, lag, ctx != nil && ctx.Err() != nil))
			}
		}
	}
	// an injected fault at this call index marks the delivery as failed
	if ctx != nil && ctx.Err() != nil {
		return
	}
	if k, ok := w.env.Faults[w.callN]; ok && k != FNone {
		if !strings.HasPrefix(label, "ack(") && w.inUserFn == 0 { // a failing acknowledgement is not a failure of the handling before it; a fault inside a nested API call fails that call only
			m.opFailed = true
			m.opFailLabel = label
		}
		if k == FCancel {
			m.lastFailure[proc] = "cancel"
		} else {
			m.lastFailure[proc] = "error"
		}
		m.NonTrivial["fault:"+m.pathName()+":"+strings.SplitN(label, "(", 2)[0]+":"+k.String()] = true
	}
}

func (m *Monitors) lagOf(tok string) time.Duration {
	c := m.w.Cfg
	if strings.HasPrefix(tok, "st:") {
		s, _ := strconv.Atoi(strings.Split(tok, ":")[1])
		return c.EffectiveLag(s)
	}
	if tok == "rty" {
		return time.Duration(c.RetryAfterSec) * time.Second
	}
	return 0
}

// ---------- record writes (C02 C03 C08 C15 C16) ----------

func (m *Monitors) onStore(rr *runRec, c *workflow.Record) {
	w := m.w
	cfg := w.Cfg
	path := m.writerKind() + " in " + m.pathName()
	m.opStores++
	if m.curTimer != nil && strings.HasPrefix(m.opTok, "pol:") && m.writerKind() == "updater" {
		if m.timerDone == nil {
			m.timerDone = map[int64]uint{}
		}
		m.timerDone[m.curTimer.ID] = c.Meta.Version
	}
	m.writes = append(m.writes, *c)
	m.entryWrite[w.outN] = [2]int{rr.ord, len(rr.versions) + 1}
	// C16: whatever is stored is an object some function (or the caller of Trigger) produced, or the deletion marker: every one
	// of those is well-formed; bytes that are not were garbled between the encoding and the Store call
	if ObjToken(c.Object) == GarbageToken {
		m.violate("C16", "object-hand-over", "stored-object-garbled via "+path,
			fmt.Sprintf("run r%d: the record handed to Store carries %q, which is not the encoding of any object a function or a Trigger call produced", rr.ord, string(c.Object)))
	}
	if len(rr.versions) == 0 {
		if c.Meta.Version != 1 {
			m.violate("C16", "version-starts-at-1", "first-version-not-1", fmt.Sprintf("first write of a run has version %d", c.Meta.Version))
		}
		if int(c.RunState) != 1 {
			m.violate("C03", "lifecycle-path", "first-run-state-not-initiated", fmt.Sprintf("first write has run state %d", int(c.RunState)))
		}
		m.checkDescr(c, path)
		return
	}
	p := &rr.versions[len(rr.versions)-1]
	prs, crs := int(p.RunState), int(c.RunState)
	// C16 identity and versioning
	if c.WorkflowName != p.WorkflowName || c.ForeignID != p.ForeignID || c.RunID != p.RunID || !c.CreatedAt.Equal(p.CreatedAt) {
		m.violate("C16", "identity", "identity-changed via "+path, fmt.Sprintf("write changed name/foreign ID/run ID/createdAt: %v -> %v", recStr(w, p), recStr(w, c)))
	}
	if c.Meta.Version != p.Meta.Version+1 {
		if strings.Contains(path, "+") {
			// version numbering broken by a re-entrant / stale-read / stale-handle write (reported under its own signature):
			// version-based reasoning about this history is void from here on
			m.tainted = true
		}
		m.violate("C16", "version-plus-one", "version-step via "+path, fmt.Sprintf("version %d written over persisted version %d (run r%d)", c.Meta.Version, p.Meta.Version, rr.ord))
	}
	if c.UpdatedAt.Before(p.UpdatedAt) {
		m.violate("C16", "updated-at-monotone", "updated-at-backwards via "+path, fmt.Sprintf("%v after %v", c.UpdatedAt, p.UpdatedAt))
	}
	m.checkDescr(c, path)
	// C02 declared transitions
	if c.Status != p.Status && !cfg.Declared(p.Status, c.Status) {
		m.violate("C02", "declared-transition", "undeclared-status-change via "+path,
			fmt.Sprintf("run r%d: persisted status changed %d -> %d, which is not a declared transition (write %s over %s)", rr.ord, p.Status, c.Status, recStr(w, c), recStr(w, p)))
	}
	// C03 lifecycle
	if !lifecycleEdge(prs, crs) {
		m.violate("C03", "lifecycle-path", fmt.Sprintf("illegal-run-state-edge %d->%d via %s", prs, crs, path),
			fmt.Sprintf("run r%d: run state %d written over %d (write %s over %s)", rr.ord, crs, prs, recStr(w, c), recStr(w, p)))
	}
	if crs == 5 && prs != 5 {
		if !(cfg.TerminalSpec(c.Status) && c.Status != p.Status) {
			m.violate("C03", "completed-iff-terminal", "completed-at-non-terminal via "+path,
				fmt.Sprintf("run r%d became Completed at status %d (previous status %d), which is not a move to a status without outgoing transitions", rr.ord, c.Status, p.Status))
		}
	}
	if c.Status != p.Status && cfg.TerminalSpec(c.Status) && crs != 5 {
		m.violate("C03", "completed-iff-terminal", "terminal-not-completed via "+path,
			fmt.Sprintf("run r%d moved to terminal status %d with run state %d", rr.ord, c.Status, crs))
	}
	// C08 frozen while stopped
	if isStopped(prs) {
		objSame := string(c.Object) == string(p.Object)
		if c.Status != p.Status || (!objSame && crs != 6) {
			m.violate("C08", "frozen-while-stopped", "stopped-run-changed via "+path,
				fmt.Sprintf("run r%d was %d (stopped) and its status/object changed: %s -> %s", rr.ord, prs, recStr(w, p), recStr(w, c)))
		}
	}
	// C15 scrub
	if crs == 6 {
		if c.Status != p.Status {
			m.violate("C15", "scrub-keeps-status", "data-deleted-changed-status in "+m.pathName(), fmt.Sprintf("%s -> %s", recStr(w, p), recStr(w, c)))
		}
		want := []byte("{'result': 'deleted'}")
		if cfg.CustomDelete {
			var o Obj
			if err := json.Unmarshal(p.Object, &o); err == nil {
				if o.M != nil {
					if k := o.M["k"]; k > ScrubBase/2 {
						o.M["k"] = ScrubBase - k
					}
				} else if o.N > ScrubBase/2 {
					o.N = ScrubBase - o.N
				}
				want, _ = json.Marshal(o)
			} else {
				want = nil
			}
		}
		if want != nil && string(c.Object) != string(want) {
			m.violate("C15", "scrub-object", "data-deleted-wrong-object in "+m.pathName(),
				fmt.Sprintf("run r%d: DataDeleted write stores %q, expected %q (custom delete of the stored object %q)", rr.ord, c.Object, want, p.Object))
		}
		if prs != 7 && prs != 6 {
			m.violate("C15", "delete-only-when-requested", fmt.Sprintf("data-deleted-from-%d in %s", prs, m.pathName()), fmt.Sprintf("run r%d", rr.ord))
		}
	}
	if crs == 7 && !(prs == 4 || prs == 5 || prs == 6 || prs == 7) {
		m.violate("C15", "delete-accepted-only-when-finished", fmt.Sprintf("delete-requested-from-%d via %s", prs, path), fmt.Sprintf("run r%d", rr.ord))
	}
	// C13: a Paused write made by a consumer right after a failing invocation
	if crs == 3 && m.opFnErr != "" {
		m.checkPauseAt(rr, c)
	}
	// the timeout inserter wraps TimerFunc and TimeoutStore.Create into one consumer function: a failing Create counts as a
	// failing step, so with an error count configured the run is paused and the event acknowledged, by design
	if crs == 3 && strings.HasPrefix(m.opTok, "ins:") && strings.HasPrefix(m.opFailLabel, "tcreate") && strings.HasPrefix(path, "controller") {
		m.opFailed = false
	}
	// C13: resume by the retry consumer
	if m.opTok == "rty" && crs == 2 {
		if prs != 3 {
			m.violate("C13", "retry-only-paused", "retry-resumed-non-paused in "+m.pathName(), fmt.Sprintf("run r%d was %d", rr.ord, prs))
		}
		if cfg.Stamp {
			since := w.Clk.Now().Sub(p.UpdatedAt)
			if since < time.Duration(cfg.RetryAfterSec)*time.Second {
				m.violate("C13", "retry-waits-interval", "retry-resumed-early in "+m.pathName(),
					fmt.Sprintf("run r%d resumed %v after it was paused, configured interval %ds", rr.ord, since, cfg.RetryAfterSec))
			}
			m.NonTrivial["retry-resume"] = true
		}
	}
}

func (m *Monitors) checkDescr(c *workflow.Record, path string) {
	want := util.CamelCaseToSpacing(St(c.Status).String())
	if c.Meta.StatusDescription != want {
		m.violate("C16", "status-description", "status-description-stale via "+path,
			fmt.Sprintf("record at status %d carries status description %q (describes another status), expected %q", c.Status, c.Meta.StatusDescription, want))
	}
}

// ---------- user-function invocations (C04 C08 C12 C13 C14) ----------

func (m *Monitors) onInvoke(inv Invocation) {
	w := m.w
	m.opInvocations = append(m.opInvocations, inv)
	w.Invocations = append(w.Invocations, inv)
	prs := int(inv.Persisted.RunState)
	failing := strings.HasPrefix(inv.Outcome, "e") || inv.Outcome == "x" || inv.Outcome == "ze" || strings.HasPrefix(inv.Outcome, "l:")
	if strings.HasPrefix(inv.Outcome, "l:") {
		m.NonTrivial["role-lost-inside-"+inv.Kind] = true
	}
	switch inv.Kind {
	case "step", "callback", "timeout", "timer":
		// C16: whatever object a function is handed, it is one that was persisted for this run - never another function's
		// in-memory modifications (which exist only if that function's write happened)
		if rr, ok := w.byID[inv.Persisted.RunID]; ok && inv.Depth == 1 && !inv.Nested {
			seen := false
			for i := range rr.versions {
				if ObjToken(rr.versions[i].Object) == inv.SeenObj {
					seen = true
				}
			}
			if !seen {
				m.violate("C16", "next-sees-persisted", "function-saw-unpersisted-object:"+inv.Kind,
					fmt.Sprintf("%s function of status %d was handed run r%d with object o%d, which no write of that run ever stored (persisted: o%d)", inv.Kind, inv.Status, inv.Run, inv.SeenObj, ObjToken(inv.Persisted.Object)))
			}
		}
		if isStopped(prs) {
			m.violate("C08", "no-invocation-while-stopped", inv.Kind+"-invoked-on-stopped-run in "+m.pathName(),
				fmt.Sprintf("%s function of status %d invoked for run r%d whose persisted run state is %d (%s)", inv.Kind, inv.Status, inv.Run, prs, m.pathName()))
			if inv.Kind == "timeout" {
				// C12: "... and the run is still at that status and neither stopped nor finished"
				m.violate("C12", "fires-only-while-waiting", "timeout-invoked-on-stopped-run in "+m.pathName(),
					fmt.Sprintf("timeout function of status %d invoked for run r%d whose persisted run state is %d (%s)", inv.Status, inv.Run, prs, m.pathName()))
			}
		}
		m.NonTrivial[fmt.Sprintf("invoke:%s:rs%d", inv.Kind, prs)] = true
	}
	switch inv.Kind {
	case "step", "timer":
		// C04: acted upon only when the event's version equals the run's current persisted version
		if idx, ok := m.inflight[m.opRole]; ok {
			ev := w.log[idx]
			evv, _ := strconv.Atoi(ev.Headers[workflow.HeaderRecordVersion])
			if uint(evv) != inv.Persisted.Meta.Version {
				m.violate("C04", "acted-only-when-current", "acted-on-event-v"+cmp(evv, int(inv.Persisted.Meta.Version))+"-persisted in "+m.pathName(),
					fmt.Sprintf("%s function invoked for event e%d carrying version %d while run r%d is persisted at version %d (record handed to it: v%d)", inv.Kind, idx, evv, inv.Run, inv.Persisted.Meta.Version, inv.SeenVer))
			}
			// the record handed to the function is older than the event that triggered it: the store lagged and the event should
			// have been retried (C04), the function does not observe the persisted object (C16)
			if uint(evv) > inv.SeenVer {
				for _, pr := range []string{"C04", "C16"} {
					m.violate(pr, "newer-event-retried", "function-ran-on-record-older-than-its-event:"+inv.Kind,
						fmt.Sprintf("%s function invoked with the record at version %d for event e%d announcing version %d (persisted: version %d)", inv.Kind, inv.SeenVer, idx, evv, inv.Persisted.Meta.Version))
				}
			}
			// … independently of the version numbers: the event announces the k-th write of the run; it is old when the run has more writes
			if aw, ok := m.evWrite[idx]; ok {
				if rr, ok2 := w.byID[inv.Persisted.RunID]; ok2 && aw[1] < len(rr.versions) && !m.tainted {
					m.violate("C04", "acted-only-when-current", "acted-on-old-announcement in "+m.pathName(),
						fmt.Sprintf("%s function invoked for event e%d, which announces write #%d of run r%d, while the run has had %d writes (event version %d, persisted version %d)", inv.Kind, idx, aw[1], inv.Run, len(rr.versions), evv, inv.Persisted.Meta.Version))
				}
			}
			if inv.Persisted.Status != inv.Status {
				m.violate("C06", "status-topic-consumer", inv.Kind+"-invoked-at-other-status in "+m.pathName(),
					fmt.Sprintf("%s function registered on status %d invoked while run r%d is persisted at status %d", inv.Kind, inv.Status, inv.Run, inv.Persisted.Status))
			}
		}
		// C16: the function observes exactly the persisted object
		if ObjToken(inv.Persisted.Object) != inv.SeenObj && !m.w.staleInOp && inv.Depth == 1 && !inv.Nested {
			m.violate("C16", "next-sees-persisted", "function-saw-other-object", fmt.Sprintf("%s saw o%d, persisted o%d", inv.Kind, inv.SeenObj, ObjToken(inv.Persisted.Object)))
		}
	case "timeout":
		t := m.curTimer
		if t == nil {
			m.violate("C12", "timeout-has-timer", "timeout-without-timer in "+m.pathName(), fmt.Sprintf("timeout function invoked for run r%d with no due timer being processed", inv.Run))
			break
		}
		if w.RunOrd(t.RunID) != inv.Run {
			m.violate("C12", "timeout-own-run", "timeout-for-other-run in "+m.pathName(),
				fmt.Sprintf("timeout function invoked for run r%d on account of timer %d, which was created for run r%d", inv.Run, t.ID, w.RunOrd(t.RunID)))
		}
		if t.ExpireAt.After(inv.Now) {
			m.violate("C12", "timeout-due", "timeout-before-expiry in "+m.pathName(), fmt.Sprintf("timer %d expires %v, clock %v", t.ID, t.ExpireAt, inv.Now))
		}
		if t.Completed {
			m.violate("C12", "completed-never-again", "completed-timer-fired in "+m.pathName(), fmt.Sprintf("timer %d", t.ID))
		}
		if v, done := m.timerDone[t.ID]; done {
			m.violate("C12", "successful-timeout-never-again", "timer-fired-again-after-its-transition in "+m.pathName(),
				fmt.Sprintf("timer %d already produced the transition written as version %d of run r%d; its timeout function is invoked again (the run is still/again at status %d)", t.ID, v, inv.Run, t.Status))
		}
		if inv.Persisted.Status != t.Status || isFinished(prs) {
			m.violate("C12", "run-still-waiting", "timeout-run-moved-on in "+m.pathName(),
				fmt.Sprintf("timeout function of status %d invoked for run r%d persisted at status %d run state %d", t.Status, inv.Run, inv.Persisted.Status, prs))
		}
		m.NonTrivial["timeout-fired"] = true
		m.lookupsSinceTimeoutFn = 0
		m.timeoutAdvanced = strings.HasPrefix(inv.Outcome, "r:") && !strings.HasPrefix(inv.Outcome, "r:0:") && !strings.HasPrefix(inv.Outcome, "r:-1:")
	case "hook":
		if idx, ok := m.inflight[m.opRole]; ok {
			ev := w.log[idx]
			if ev.Headers[workflow.HeaderRunState] != strconv.Itoa(inv.Status) {
				m.violate("C14", "hook-own-state", "hook-invoked-for-other-state",
					fmt.Sprintf("hook of run state %d invoked on account of an event with run state %s", inv.Status, ev.Headers[workflow.HeaderRunState]))
			}
			if !failing {
				m.hookOK[fmt.Sprintf("%d/%d/%s", inv.Status, inv.Run, ev.Headers[workflow.HeaderRecordVersion])] = true
			}
		}
	}
	if !failing && inv.Depth == 1 {
		m.opFnErr = ""
	}
	if failing {
		switch inv.Kind {
		case "step", "timer", "timeout":
			m.opFnErr = inv.Outcome
			if inv.Kind == "timeout" {
				// the poller swallows timeout-function errors (retried on later polls); nothing is acknowledged
				m.countErr(inv, "timeout")
			} else {
				m.opFailed = true
				m.countErr(inv, "step")
			}
		case "callback":
			// a failing callback function fails the Callback call, not a delivery (a nested one is the caller's business)
		default:
			m.opFailed = true
		}
	}
}

func cmp(a, b int) string {
	switch {
	case a < b:
		return "lt"
	case a > b:
		return "gt"
	}
	return "eq"
}

// ---------- C13: exact error-count pausing ----------

func (m *Monitors) thresholdOf(inv Invocation) int {
	c := m.w.Cfg
	switch inv.Kind {
	case "step":
		return c.EffectivePauseAfter("step", inv.Status)
	default: // timer (inserter) and timeout (poller) use the timeout status' value
		return c.EffectivePauseAfter("timeout", inv.Status)
	}
}

func errMsg(out string) string {
	if out == "x" {
		return "err-x"
	}
	if out == "ze" {
		return "err-ze"
	}
	return "err-" + strings.TrimPrefix(out, "e:")
}

func (m *Monitors) countErr(inv Invocation, _ string) {
	n := m.thresholdOf(inv)
	if n == 0 {
		return
	}
	key := fmt.Sprintf("%d|%s|%s", inv.Run, m.opTok, errMsg(inv.Outcome))
	m.errCount[key]++
}

func (m *Monitors) checkPauseAt(rr *runRec, c *workflow.Record) {
	if len(m.opInvocations) == 0 {
		return
	}
	inv := m.opInvocations[len(m.opInvocations)-1]
	if inv.Run != rr.ord {
		return
	}
	n := m.thresholdOf(inv)
	key := fmt.Sprintf("%d|%s|%s", inv.Run, m.opTok, errMsg(inv.Outcome))
	cnt := m.errCount[key]
	if n == 0 {
		m.violate("C13", "never-paused-when-unconfigured", "paused-without-threshold", fmt.Sprintf("run r%d paused by %s although no error count is configured", rr.ord, m.opTok))
	} else if m.pauseUncertain[key] {
		// an earlier pause of this key happened under an injected fault (e.g. the Paused write took effect but returned an error, so
		// the library did not clear its counter): outside C13's quantifier, counts for this key are no longer comparable
	} else if cnt > n && m.pausePending[key] {
		// an earlier attempt to pause at the n-th occurrence failed on an injected store fault; this occurrence completes it
	} else if cnt != n {
		m.violate("C13", "paused-at-nth", "paused-at-wrong-count", fmt.Sprintf("run r%d paused by %s at occurrence %d of %s, configured %d", rr.ord, m.opTok, cnt, errMsg(inv.Outcome), n))
	}
	m.errCount[key] = 0
	if len(m.w.env.Faults) > 0 || m.opLeaseLost {
		m.pauseUncertain[key] = true
	}
	delete(m.pausePending, key)
	m.opFnErr = ""
	m.opFailed = false // handled: the event is acknowledged by design
	m.NonTrivial["auto-pause:"+strconv.Itoa(n)] = true
}

// pauseMissed is called at the end of a consumer operation in which the last failing invocation reached the threshold
// but no Paused write followed although nothing else failed.
func (m *Monitors) pauseMissed() {
	if m.opFnErr == "" || len(m.opInvocations) == 0 {
		return
	}
	inv := m.opInvocations[len(m.opInvocations)-1]
	n := m.thresholdOf(inv)
	if n == 0 {
		return
	}
	key := fmt.Sprintf("%d|%s|%s", inv.Run, m.opTok, errMsg(inv.Outcome))
	if m.errCount[key] >= n && (len(m.w.env.Faults) > 0 || m.opLeaseLost) {
		m.pausePending[key] = true
	}
	if m.errCount[key] >= n && !isStopped(int(inv.Persisted.RunState)) && len(m.w.env.Faults) == 0 && !m.opLeaseLost {
		m.violate("C13", "paused-at-nth", "not-paused-at-threshold",
			fmt.Sprintf("run r%d: occurrence %d of %s in %s reached the configured count %d but the run was not paused", inv.Run, m.errCount[key], errMsg(inv.Outcome), m.opTok, n))
	}
}

// ---------- deliveries (C07) ----------

func (m *Monitors) onNewReceiver(name, topic string) {
	m.recvTopic[name] = topic
	w := m.w
	tok := w.sim.Tok[name]
	want := ""
	n := w.Cfg.Name
	switch {
	case strings.HasPrefix(tok, "st:"), strings.HasPrefix(tok, "ins:"):
		s, _ := strconv.Atoi(strings.Split(tok, ":")[1])
		want = workflow.Topic(n, s)
	case strings.HasPrefix(tok, "hk:"), tok == "rty":
		want = workflow.RunStateChangeTopic(n)
	case tok == "del":
		want = workflow.DeleteTopic(n)
	}
	if want != "" && topic != want {
		m.violate("C06", "consumer-topic", "consumer-subscribed-to-wrong-topic:"+strings.SplitN(tok, ":", 2)[0], fmt.Sprintf("%s subscribed to %q, expected %q", tok, topic, want))
	}
}

func (m *Monitors) onRecv(name string, idx int, ev *workflow.Event) {
	if want, ok := m.unacked[name]; ok && !m.advers[name] && want != idx {
		m.violate("C07", "failure-redelivers", "unacked-event-not-redelivered", fmt.Sprintf("%s: event e%d was not acknowledged, next delivery is e%d", m.w.sim.Tok[name], want, idx))
	}
	delete(m.unacked, name)
	delete(m.readVer, name)
	m.inflight[name] = idx
	m.opFailed = false
	m.opFnErr = ""
}

func (m *Monitors) onAck(name string, idx int) {
	w := m.w
	if cur, ok := m.inflight[name]; !ok || cur != idx {
		m.violate("C07", "ack-own-delivery", "ack-of-undelivered-event", fmt.Sprintf("%s acked e%d", w.sim.Tok[name], idx))
	}
	tokAck := w.sim.Tok[name]
	if !m.opFailed && !m.opLeaseLost && len(w.env.Faults) == 0 && !w.staleInOp && !w.nestedInOp && !m.filteredAck && m.opStores == 0 && idx < len(w.log) {
		if rr, ok := w.byID[w.log[idx].Headers[workflow.HeaderRunID]]; ok && len(rr.versions) > 0 {
			last := rr.versions[len(rr.versions)-1]
			// C15: the delete consumer acknowledges a request only after it has written the scrubbed, DataDeleted record
			if tokAck == "del" && int(last.RunState) == 7 {
				m.violate("C15", "request-executed", "delete-request-acknowledged-without-deletion"+m.afterFlag(),
					fmt.Sprintf("the delete consumer acknowledged e%d without writing anything: run r%d stays RequestedDataDeleted (object %d) and the request will not be delivered again", idx, rr.ord, ObjToken(last.Object)))
			}
			// C16: what a step function returns as a declared destination is persisted (status and the object it left) before the event is acknowledged
			if strings.HasPrefix(tokAck, "st:") && len(m.opInvocations) > 0 {
				inv := m.opInvocations[len(m.opInvocations)-1]
				if parts := strings.Split(inv.Outcome, ":"); inv.Kind == "step" && inv.Depth == 1 && len(parts) == 3 && parts[0] == "r" {
					next, _ := strconv.Atoi(parts[1])
					if next != 0 && next != -1 && w.Cfg.Declared(inv.Status, next) && int(inv.Persisted.Status) == inv.Status && !isStopped(int(inv.Persisted.RunState)) {
						m.violate("C16", "advance-persisted", "returned-advance-not-persisted"+m.afterFlag(),
							fmt.Sprintf("the step function of status %d returned the declared destination %d for run r%d (object left: %s) but nothing was written before e%d was acknowledged", inv.Status, next, inv.Run, parts[2], idx))
					}
				}
			}
		}
	}
	if m.opFailed && w.sim.Tok[name] == "del" && len(w.env.Faults) == 0 && !m.opLeaseLost {
		// C15: "If the delete function fails, the run stays RequestedDataDeleted with its object intact and the request is retried"
		m.violate("C15", "failed-delete-retried", "failed-delete-acknowledged"+m.afterFlag(),
			fmt.Sprintf("the delete consumer acknowledged e%d although the custom delete function failed (%q): the request is dropped, the run stays RequestedDataDeleted for good", idx, m.opFnErr))
	}
	if m.opFailed || m.opLeaseLost {
		m.violate("C07", "ack-after-success-only", "ack-after-failure:"+strings.SplitN(w.sim.Tok[name], ":", 2)[0],
			fmt.Sprintf("%s acknowledged e%d although its handling failed (fault plan %v, failing outcome %q, lease lost %v)", w.sim.Tok[name], idx, w.env.Faults, m.opFnErr, m.opLeaseLost))
	}
	// C04: an announcement newer than what the store returned must be retried, never acknowledged
	if v, ok := m.readVer[name]; ok {
		evv, _ := strconv.Atoi(w.log[idx].Headers[workflow.HeaderRecordVersion])
		tok := w.sim.Tok[name]
		if (strings.HasPrefix(tok, "st:") || strings.HasPrefix(tok, "ins:")) && uint(evv) > v && !m.filteredAck {
			m.violate("C04", "newer-event-retried", "newer-event-acknowledged:"+strings.SplitN(tok, ":", 2)[0],
				fmt.Sprintf("%s acknowledged e%d carrying version %d although the store answered with version %d (a lagging read): the announcement is dropped instead of retried", tok, idx, evv, v))
		}
	}
	delete(m.readVer, name)
	delete(m.inflight, name)
	delete(m.advers, name)
	m.pauseMissedOnAck()
}

func (m *Monitors) pauseMissedOnAck() {}

func (m *Monitors) onClose(name string) {
	if idx, ok := m.inflight[name]; ok {
		// C04: "older announcements are acknowledged": a delivery whose announcement is older than the record the store answered with
		// must end in an acknowledgement when nothing was injected and no user function ran
		w := m.w
		tok := w.sim.Tok[name]
		if v, seen := m.readVer[name]; seen && (strings.HasPrefix(tok, "st:") || strings.HasPrefix(tok, "ins:")) && idx < len(w.log) &&
			!m.opFailed && !m.opLeaseLost && len(w.env.Faults) == 0 && len(m.opInvocations) == 0 && !m.stopping && !m.stopped {
			if evv, err := strconv.Atoi(w.log[idx].Headers[workflow.HeaderRecordVersion]); err == nil && uint(evv) < v {
				m.violate("C04", "older-event-acknowledged", "older-announcement-not-acknowledged:"+strings.SplitN(tok, ":", 2)[0],
					fmt.Sprintf("%s received e%d carrying version %d, the store answered with version %d (the announcement is out of date), nothing was injected and no function ran, yet the consumer gave up without acknowledging: it will be handed the same stale event again and again", tok, idx, evv, v))
			}
		}
		m.unacked[name] = idx
		delete(m.inflight, name)
	}
}

// onLookupResult: the first answer of the store during a delivery (the handler's read)
func (m *Monitors) onLookupResult(r *workflow.Record) {
	m.lookupsSinceTimeoutFn++
	if _, ok := m.inflight[m.opRole]; !ok {
		return
	}
	if _, seen := m.readVer[m.opRole]; !seen {
		m.readVer[m.opRole] = r.Meta.Version
	}
}

// ---------- relay (C05) ----------

func sendKey(topic string, fid string, typ int, h map[workflow.Header]string) string {
	return fmt.Sprintf("%s|%s|%d|%s|%s|%s|%s|%s", topic, fid, typ, h[workflow.HeaderRunID], h[workflow.HeaderForeignID], h[workflow.HeaderRunState], h[workflow.HeaderRecordVersion], h[workflow.HeaderTopic])
}

func (m *Monitors) onSend(topic string, e *workflow.Event) {
	w := m.w
	// C06: the sender an event goes through was opened on the topic the record calls for (a streamer that publishes on the
	// sender's topic, as Kafka does, delivers it to the consumers of that topic)
	if ht := e.Headers[workflow.HeaderTopic]; ht != topic {
		m.violate("C06", "sent-on-its-topic", "sent-on-other-topic", fmt.Sprintf("event for run %s with topic header %q was sent through a sender opened on topic %q", e.ForeignID, ht, topic))
	}
	// nothing is published that was not written: the event must describe a pending outbox entry
	key := sendKey(topic, e.ForeignID, e.Type, e.Headers)
	found := -1
	for _, oe := range w.outbox {
		ob, err := decodeOutbox(oe.data)
		if err != nil {
			continue
		}
		h := map[workflow.Header]string{}
		for k, v := range ob.Headers {
			h[workflow.Header(k)] = v
		}
		if sendKey(ob.Headers["topic"], ob.RunId, int(ob.Type), h) == key && !m.sentOK[oe.ord] {
			found = oe.ord
			break
		}
	}
	if found < 0 {
		// maybe a re-send of an entry already sent (delete failed earlier)
		for _, oe := range w.outbox {
			ob, _ := decodeOutbox(oe.data)
			if ob == nil {
				continue
			}
			h := map[workflow.Header]string{}
			for k, v := range ob.Headers {
				h[workflow.Header(k)] = v
			}
			if sendKey(ob.Headers["topic"], ob.RunId, int(ob.Type), h) == key {
				found = oe.ord
				break
			}
		}
	}
	if found < 0 {
		m.violate("C05", "published-was-written", "published-without-pending-entry", fmt.Sprintf("event %s does not correspond to any pending outbox entry", key))
		return
	}
	m.sentOK[found] = true
	m.evWrite[len(w.log)] = m.entryWrite[found]
	if len(w.env.Faults) > 0 {
		m.NonTrivial["relay-faulted"] = true
	}
}

func (m *Monitors) onOutboxDelete(ord int) {
	if ord < 0 {
		return
	}
	if !m.sentOK[ord] {
		m.violate("C05", "delete-after-send", "outbox-entry-deleted-before-send", fmt.Sprintf("outbox entry #%d removed without the streamer having accepted its event", ord))
	}
	m.NonTrivial["relay-batch"] = true
}

// ---------- timers (C12) ----------

func (m *Monitors) onTimerCreate(t *workflow.TimeoutRecord) {
	w := m.w
	if t.ExpireAt.IsZero() {
		m.violate("C12", "created-only-non-zero", "timer-created-with-zero-expiry", fmt.Sprintf("timer %d", t.ID))
	}
	if !strings.HasPrefix(m.opTok, "ins:") {
		m.violate("C12", "created-only-on-arrival", "timer-created-outside-inserter", fmt.Sprintf("timer %d created by %s", t.ID, m.opTok))
		return
	}
	idx, ok := m.inflight[m.opRole]
	if !ok {
		m.violate("C12", "created-only-on-arrival", "timer-created-without-arrival-event", fmt.Sprintf("timer %d", t.ID))
		return
	}
	ev := w.log[idx]
	if ev.ForeignID != t.RunID || ev.Headers[workflow.HeaderTopic] != workflow.Topic(w.Cfg.Name, t.Status) {
		m.violate("C12", "created-only-on-arrival", "timer-created-for-other-arrival", fmt.Sprintf("timer %d (run r%d status %d) created while handling %s", t.ID, w.RunOrd(t.RunID), t.Status, evStr(w, idx, ev)))
	}
}

func (m *Monitors) onTimerCancel(id int64) {}

// onTimerComplete (C12): "a successful timeout transition marks its timer completed": the timer of the timeout being processed
// may be completed only after the updater has run (it re-reads the run before it writes).
func (m *Monitors) onTimerComplete(id int64) {
	if m.curTimer == nil || m.curTimer.ID != id || !strings.HasPrefix(m.opTok, "pol:") {
		return
	}
	if m.timeoutAdvanced && m.lookupsSinceTimeoutFn == 0 {
		m.violate("C12", "completed-only-after-transition", "timer-completed-before-its-transition in "+m.pathName(),
			fmt.Sprintf("timer %d is marked completed before the transition returned by its timeout function has been persisted: a failure of that write loses the timeout for good", id))
	}
}

// onPollLatest is called by the store wrapper when the poller re-reads a run: associates the next due timer.
func (m *Monitors) pollerSaw(list []workflow.TimeoutRecord) { m.pollList = list; m.pollIdx = 0 }

func (m *Monitors) pollerNext() {
	if m.pollIdx < len(m.pollList) {
		t := m.pollList[m.pollIdx]
		m.curTimer = &t
		m.pollIdx++
	} else {
		m.curTimer = nil
	}
}

// ---------- supervision (C10 C11) ----------

func (m *Monitors) onAwait(role string) {
	m.awaits[role]++
	w := m.w
	// C07: "the receiver is closed" before the process goes back for its role
	if n := w.opens[role] - w.closes[role]; n > 0 && !m.stopping && !m.stopped {
		tok := role
		if w.sim != nil && w.sim.Tok[role] != "" {
			tok = w.sim.Tok[role]
		}
		m.violate("C07", "receiver-closed", "receiver-left-open:"+strings.SplitN(tok, ":", 2)[0],
			fmt.Sprintf("process %s is back at the role scheduler with %d receiver(s) it opened still not closed (last failure: %q)", tok, n, m.lastFailure[role]))
	}
	if w.sim == nil {
		return
	}
	if _, ok := w.sim.Tok[role]; !ok {
		m.violate("C10", "expected-processes", "unexpected-role-requested", fmt.Sprintf("role %q requested from the role scheduler is not one the configuration calls for", role))
	}
}

func (m *Monitors) afterRun(s *Sim) {
	// every configured unit has exactly one process
	for tok, role := range s.Role {
		if m.awaits[role] != 1 {
			kind := strings.SplitN(tok, ":", 2)[0]
			m.violate("C10", "expected-processes", fmt.Sprintf("process-launched-%d-times:%s", m.awaits[role], kind),
				fmt.Sprintf("process %s (role %q) requested its role %d times after Run, expected once", tok, role, m.awaits[role]))
		}
	}
	if len(s.WF.States()) != len(s.Role) {
		m.violate("C10", "expected-processes", "process-count-differs", fmt.Sprintf("States() has %d entries, configuration calls for %d", len(s.WF.States()), len(s.Role)))
	}
}

func (m *Monitors) afterStop(s *Sim) {
	m.stopped = true
	for name, st := range s.WF.States() {
		if st != workflow.StateShutdown {
			m.violate("C11", "stop-waits", "process-not-shutdown-after-stop", fmt.Sprintf("%s is %s after Stop returned", name, st))
		}
	}
	w := m.w
	for name, n := range w.opens {
		if w.closes[name] < n {
			m.violate("C11", "close-what-was-opened", "receiver-not-closed", fmt.Sprintf("%s opened %d receivers, closed %d", s.Tok[name], n, w.closes[name]))
			m.violate("C07", "receiver-closed", "receiver-not-closed", fmt.Sprintf("%s opened %d receivers, closed %d", s.Tok[name], n, w.closes[name]))
		}
	}
	if w.sendCls < w.sendOpen {
		m.violate("C11", "close-what-was-opened", "sender-not-closed", fmt.Sprintf("relay opened %d senders, closed %d", w.sendOpen, w.sendCls))
	}
}

// ---------- API results (C09 C02) ----------

func (m *Monitors) unfinishedPerFid() map[string]int {
	out := map[string]int{}
	for _, rr := range m.w.runs {
		rs := int(rr.versions[len(rr.versions)-1].RunState)
		if !isFinished(rs) {
			out[rr.fid]++
		}
	}
	return out
}

func (m *Monitors) afterTrigger(fid, start, n int, err error, runsBefore int) {
	w := m.w
	cfg := w.Cfg
	created := len(w.runs) - runsBefore
	f := "f" + strconv.Itoa(fid)
	// latest created run of this foreign ID before the call
	var last *workflow.Record
	for i := runsBefore - 1; i >= 0; i-- {
		if w.runs[i].fid == f {
			vs := w.runs[i].versions
			// the version persisted before this trigger (the new run is a different runRec)
			last = &vs[len(vs)-1]
			break
		}
	}
	inProgress := last != nil && !isFinished(int(last.RunState))
	startOK := true
	if start != 0 {
		startOK = cfg.IsNode(start)
	}
	faulted := len(w.env.Faults) > 0
	if err == nil {
		if created != 1 {
			m.violate("C09", "trigger-creates-one", "trigger-ok-created-"+strconv.Itoa(created), fmt.Sprintf("Trigger(f%d) returned nil and created %d runs", fid, created))
		}
		if inProgress {
			m.violate("C09", "one-unfinished-run", "trigger-while-in-progress", fmt.Sprintf("Trigger(f%d) succeeded although the latest run of f%d is in run state %d", fid, fid, int(last.RunState)))
		}
		if !startOK {
			m.violate("C02", "start-declared", "trigger-undeclared-start", fmt.Sprintf("Trigger started at undeclared status %d", start))
		}
		if created == 1 {
			r := w.runs[len(w.runs)-1].versions[0]
			if int(r.RunState) != 1 || r.Meta.Version != 1 || ObjToken(r.Object) != n || r.ForeignID != f {
				m.violate("C09", "trigger-record", "trigger-wrote-wrong-record", recStr(w, &r))
			}
			if start != 0 && r.Status != start {
				m.violate("C09", "trigger-record", "trigger-wrong-start", fmt.Sprintf("requested %d, got %d", start, r.Status))
			}
			if start == 0 && r.Status != int(w.WF.VerifDefaultStartingPoint()) {
				m.violate("C02", "start-default", "trigger-not-at-default-start", fmt.Sprintf("got %d", r.Status))
			}
			if !cfg.IsNode(r.Status) {
				m.violate("C02", "start-declared", "trigger-undeclared-start", fmt.Sprintf("run started at undeclared status %d", r.Status))
			}
		}
	} else {
		if created != 0 && !faulted {
			m.violate("C09", "trigger-error-writes-nothing", "trigger-error-but-wrote", fmt.Sprintf("Trigger(f%d) returned %v and created %d runs", fid, err, created))
		}
		if !faulted && !inProgress && startOK {
			m.violate("C09", "trigger-accepts", "trigger-rejected-without-reason", fmt.Sprintf("Trigger(f%d) returned %v although nothing is in progress", fid, err))
		}
	}
	for k, v := range m.unfinishedPerFid() {
		if v > 1 {
			m.violate("C09", "one-unfinished-run", "two-unfinished-runs"+m.afterFlag(), fmt.Sprintf("foreign ID %s has %d unfinished runs", k, v))
		}
	}
	if inProgress || last != nil {
		m.NonTrivial[fmt.Sprintf("trigger-on-existing:%v:%v", inProgress, err == nil)] = true
	}
}

func (m *Monitors) afterCallback(fid, status int, err error) {
	// C02: an undeclared destination must surface as an error to the Callback caller — checked through opInvocations
	for _, inv := range m.opInvocations {
		if inv.Kind != "callback" || inv.Depth != 1 || inv.Nested {
			continue
		}
		parts := strings.Split(inv.Outcome, ":")
		if parts[0] == "r" {
			next, _ := strconv.Atoi(parts[1])
			if next != 0 && next != -1 && !m.w.Cfg.Declared(inv.Status, next) && err == nil && inv.Persisted.Status == inv.Status && len(m.w.env.Faults) == 0 {
				// only when the run is still at that status when the updater re-reads it (no nested move)
				cur := m.w.persisted(inv.Persisted.RunID)
				if cur.Status == inv.Status {
					m.violate("C02", "undeclared-errors", "callback-undeclared-destination-no-error",
						fmt.Sprintf("callback on status %d returned undeclared destination %d and Callback returned nil", inv.Status, next))
				}
			}
			m.NonTrivial[fmt.Sprintf("callback-outcome:%v", m.w.Cfg.Declared(inv.Status, next))] = true
		}
	}
}

func (m *Monitors) afterCtl(run int, op string, err error, versionsBefore int, stale bool) {
	w := m.w
	wrote := len(w.runs[run].versions) - versionsBefore
	if err != nil && wrote != 0 && len(w.env.Faults) == 0 {
		m.violate("C03", "rejected-without-write", "ctl-rejected-but-wrote", fmt.Sprintf("%s on run r%d returned %v but stored %d records", op, run, err, wrote))
	}
	if err == nil && wrote == 0 && len(w.env.Faults) == 0 {
		props := []string{"C03"}
		if strings.Contains(op, "delete") {
			props = append(props, "C15") // "a repeated request ... is accepted and executed again"
		}
		for _, prop := range props {
			m.violate(prop, "accepted-means-written", "ctl-accepted-but-nothing-stored:"+op+m.afterFlag(),
				fmt.Sprintf("%s on run r%d returned nil but stored nothing: the caller was told the request was accepted, nothing announces it", op, run))
		}
	}
	m.NonTrivial[fmt.Sprintf("ctl:%s:%v:%v", op, err == nil, stale)] = true
}

// Quiescent checks, run by the scenario once nothing is enabled any more.
func (m *Monitors) atQuiescence(s *Sim) {
	w := m.w
	// C05: every write published at least once
	pub := map[string]int{}
	for _, e := range w.log {
		pub[sendKey(e.Headers[workflow.HeaderTopic], e.ForeignID, e.Type, e.Headers)]++
	}
	for _, r := range m.writes {
		ed, err := workflow.MakeOutboxEventData(r)
		if err != nil {
			continue
		}
		ob, _ := decodeOutbox(ed.Data)
		h := map[workflow.Header]string{}
		for k, v := range ob.Headers {
			h[workflow.Header(k)] = v
		}
		if pub[sendKey(ob.Headers["topic"], ob.RunId, int(ob.Type), h)] == 0 {
			m.violate("C05", "every-write-published", "write-never-published"+m.afterFlag(), fmt.Sprintf("write %s was never published although the relay is idle and the outbox is empty", recStr(w, &r)))
		}
	}
	// C14: each entry into a hooked state has had a successful hook invocation (unless data deleted)
	for _, r := range m.writes {
		rs := int(r.RunState)
		if (rs == 3 || rs == 4 || rs == 5) && w.Cfg.HasHook(rs) {
			key := fmt.Sprintf("%d/%d/%d", rs, w.RunOrd(r.RunID), r.Meta.Version)
			cur := w.persisted(r.RunID)
			if !m.hookOK[key] && ObjToken(cur.Object) != MarkerToken {
				m.violate("C14", "hook-at-least-once", fmt.Sprintf("hook-%d-never-succeeded", rs)+m.afterFlag(),
					fmt.Sprintf("run r%d entered run state %d at version %d; at quiescence its hook has not returned nil for that entry", w.RunOrd(r.RunID), rs, r.Meta.Version))
			}
			m.NonTrivial["hooked-write:"+strconv.Itoa(rs)] = true
		}
	}
	// C04 / C01: a run that rests at a status with a step, Initiated or Running, has had its CURRENT version handed to the step
	// function: its announcement is the newest of the run, was published (C05), is redelivered until acknowledged, and may be
	// acknowledged only after handling. A run for which that never happened has lost its newest announcement (dropped instead of
	// retried, skipped by a consumer that moved past it) and is stranded.
	// (Not on histories in which a listed finding has already broken the version numbering: what the consumers did with
	// the announcements of such a run is a consequence of that.)
	for _, rr := range w.runs {
		if len(rr.versions) == 0 || m.tainted {
			continue
		}
		last := rr.versions[len(rr.versions)-1]
		if rs := int(last.RunState); rs != 1 && rs != 2 {
			continue
		}
		hasStep, hasTimeout := false, false
		for _, bc := range w.Cfg.Calls {
			if bc.Kind == "step" && bc.From == last.Status {
				hasStep = true
			}
			if bc.Kind == "timeout" && bc.From == last.Status {
				hasTimeout = true
			}
		}
		if hasTimeout {
			// the same for the timeout inserter: the run's current version was handed to the timer function (C08: "resume
			// re-announces the run at its current status", C12: "a timer is created when a run's arrival is processed")
			timed := false
			for _, inv := range w.Invocations {
				if inv.Kind == "timer" && inv.Run == rr.ord && inv.SeenVer == last.Meta.Version && inv.Status == last.Status {
					timed = true
				}
			}
			if !timed {
				props := []string{"C12", "C01"}
				if len(rr.versions) >= 2 && int(rr.versions[len(rr.versions)-2].RunState) == 3 {
					props = append(props, "C08")
				}
				for _, prop := range props {
					m.violate(prop, "current-announcement-acted-on", "newest-arrival-never-timed"+m.afterFlag(),
						fmt.Sprintf("run r%d rests at timeout status %d (run state %d, version %d), every process is idle - but the timer function was never handed version %d: the inserter did not process the run's newest arrival",
							rr.ord, last.Status, int(last.RunState), last.Meta.Version, last.Meta.Version))
				}
			}
		}
		if !hasStep {
			continue
		}
		acted := false
		for _, inv := range w.Invocations {
			if inv.Kind == "step" && inv.Run == rr.ord && inv.SeenVer == last.Meta.Version && inv.Status == last.Status {
				acted = true
			}
		}
		if !acted {
			props := []string{"C04", "C01"}
			if len(rr.versions) >= 2 && int(rr.versions[len(rr.versions)-2].RunState) == 3 {
				props = append(props, "C08") // "... resume re-announces the run at its current status"
			}
			for _, prop := range props {
				m.violate(prop, "current-announcement-acted-on", "newest-announcement-never-handled"+m.afterFlag(),
					fmt.Sprintf("run r%d rests at status %d (run state %d, version %d) which has a step, every process is idle, nothing is due and the outbox is empty - but the step function was never handed version %d: the announcement of the run's newest write was dropped",
						rr.ord, last.Status, int(last.RunState), last.Meta.Version, last.Meta.Version))
			}
		}
		m.NonTrivial["rests-at-step-status"] = true
	}
	// C15: "an accepted deletion request is eventually executed": events are never lost by the simulated streamer (cursors only move
	// back, duplicates are added), the drain was fault-free and the delete function succeeded, so no run may still be RequestedDataDeleted
	for _, rr := range w.runs {
		if len(rr.versions) == 0 {
			continue
		}
		if last := rr.versions[len(rr.versions)-1]; int(last.RunState) == 7 {
			m.violate("C15", "request-executed", "delete-request-never-executed"+m.afterFlag(),
				fmt.Sprintf("run r%d is still RequestedDataDeleted (version %d, object %d) although every process is idle, nothing is due and the outbox is empty: the request was never handed to the delete consumer", rr.ord, last.Meta.Version, ObjToken(last.Object)))
		}
	}
}
