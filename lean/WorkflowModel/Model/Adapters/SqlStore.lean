import WorkflowModel.Model.Text
import WorkflowModel.Model.Adapters.RefStore
/-! # SqlStore: the parts of the SQL record store that are logic (model for C18)

* `WB` — the where-clause builder of `sqlstore.List` (`whereBuilder`): text and bound parameters.
* `runTx` — a transaction on a working copy: statements run in order on the copy, any failure (a statement, the event
  encoding, the commit) discards the copy; `sqlStore` instantiates it with the statements of `SQLStore.Store`. -/
namespace WorkflowModel.SqlStore
open WorkflowModel

/-! ## where builder -/

structure WB where
  conds : List Str := []
  params : List Str := []
  orderField : Str := []
  orderType : Str := []
  offset : Int := 0
  limit : Int := 0
deriving Repr, Inhabited

def S (s : String) : Str := Text.ofString s

/-- `field=? OR field=? …` for n values -/
def orJoin (field : Str) : Nat → Str
  | 0 => []
  | 1 => field ++ [61, 63]                                   -- "=?"
  | n + 2 => field ++ [61, 63] ++ [32, 79, 82, 32] ++ orJoin field (n + 1)   -- " OR "

def WB.whereIn (wb : WB) (field : Str) (values : List Str) : WB :=
  { wb with conds := wb.conds ++ [[32, 40, 32] ++ orJoin field values.length ++ [32, 41, 32]],   -- " ( " … " ) "
            params := wb.params ++ values }

/-- " is not null" -/
def isNotNull : Str := [32, 105, 115, 32, 110, 111, 116, 32, 110, 117, 108, 108]

def WB.whereNotNull (wb : WB) (field : Str) : WB := { wb with conds := wb.conds ++ [field ++ isNotNull] }
def WB.orderBy (wb : WB) (field ty : Str) : WB := { wb with orderField := field, orderType := ty }
def WB.setOffset (wb : WB) (o : Int) : WB := { wb with offset := o }
def WB.setLimit (wb : WB) (l : Int) : WB := { wb with limit := l }

def sAnd : Str := [32, 65, 78, 68, 32]                        -- " AND "
def sOrderBy : Str := [32, 111, 114, 100, 101, 114, 32, 98, 121, 32]   -- " order by "
def sLimit : Str := [32, 108, 105, 109, 105, 116, 32, 63]     -- " limit ?"
def sOffset : Str := [32, 111, 102, 102, 115, 101, 116, 32, 63]  -- " offset ?"

def WB.finalise (wb : WB) : Str × List Str :=
  let w := Text.join sAnd wb.conds
  let w := if wb.orderField ≠ [] then w ++ sOrderBy ++ wb.orderField ++ [32] ++ wb.orderType else w
  let wp := if wb.limit > 0 then (w ++ sLimit, wb.params ++ [Text.intDec wb.limit]) else (w, wb.params)
  if wb.offset > 0 then (wp.1 ++ sOffset, wp.2 ++ [Text.intDec wb.offset]) else wp

/-- number of placeholders in a statement text -/
def placeholders (s : Str) : Nat := s.count 63

inductive BOp where
  | whereIn (field : Str) (values : List Str)
  | whereNotNull (field : Str)
  | orderBy (field ty : Str)
  | setOffset (o : Int)
  | setLimit (l : Int)

def BOp.apply (wb : WB) : BOp → WB
  | .whereIn f vs => wb.whereIn f vs
  | .whereNotNull f => wb.whereNotNull f
  | .orderBy f t => wb.orderBy f t
  | .setOffset o => wb.setOffset o
  | .setLimit l => wb.setLimit l

/-- field names and order keywords contain no '?' -/
def BOp.clean : BOp → Prop
  | .whereIn f _ => placeholders f = 0
  | .whereNotNull f => placeholders f = 0
  | .orderBy f t => placeholders f = 0 ∧ placeholders t = 0
  | _ => True

/-- the builder calls of `SQLStore.List` -/
def listOps (wf : Option Str) (fids sts rss : Option (List Str)) (limit : Int) (offset : Int) (order : Str) : List BOp :=
  (match wf with | some w => [BOp.whereIn (S "workflow_name") [w]] | none => []) ++
  (match fids with | some v => [BOp.whereIn (S "foreign_id") v] | none => []) ++
  (match sts with | some v => [BOp.whereIn (S "status") v] | none => []) ++
  (match rss with | some v => [BOp.whereIn (S "run_state") v] | none => []) ++
  [BOp.whereNotNull (S "run_id"), BOp.orderBy (S "created_at") order,
   BOp.setLimit (if limit = 0 then 25 else limit), BOp.setOffset offset]

/-! ## transaction -/

/-- statements run on a working copy; `none` = the statement failed -/
def runStmts {σ : Type} : List (σ → Option σ) → σ → Option σ
  | [], s => some s
  | f :: fs, s => match f s with
    | none => none
    | some s' => runStmts fs s'

/-- begin (may fail) ; statements on the copy ; commit (may fail). Result: committed state and success flag. -/
def runTx {σ : Type} (beginOk commitOk : Bool) (stmts : List (σ → Option σ)) (s : σ) : σ × Bool :=
  if !beginOk then (s, false) else
  match runStmts stmts s with
  | none => (s, false)                       -- deferred Rollback
  | some s' => if commitOk then (s', true) else (s, false)

open WorkflowModel.RefStore in
/-- `SQLStore.Store`: select by run ID, insert or update, encode the event, insert the outbox row. `ok i` says whether
the i-th step succeeds (fault plan); `encodable` whether `MakeOutboxEventData` succeeds for the record. -/
def sqlStore (beginOk commitOk : Bool) (ok : Nat → Bool) (encodable : Bool) (s : Store) (r : SRec) : Store × Bool :=
  runTx beginOk commitOk
    [ (fun d => if ok 0 then some d else none),                                         -- select … where run_id=?
      (fun d => if ok 1 then some { d with recs := (d.store r).recs } else none),        -- insert / update
      (fun d => if encodable then some d else none),                                     -- MakeOutboxEventData
      (fun d => if ok 2 then some { d with outbox := (d.store r).outbox, nextId := (d.store r).nextId } else none) ] s

end WorkflowModel.SqlStore
